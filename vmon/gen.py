"""Workload generator: a *Problem* (plain nested dict, JSON-able) is rendered
to a DASSH input file plus a user-power CSV, so that every case enters DASSH
through its real client boundary (the input parser).

Problem layout (SI units unless P['units'] says otherwise; see units.py):

  P = {'length', 'asm_pitch', 'inlet', 'coolant', 'gap_model',
       'bypass_fraction', 'htc_params_duct'?,
       'setup': {key: value},            # [Setup] scalars
       'setup_sub': {'Dump': {...}, 'AssemblyTables': {...}},
       'materials': {name: {prop: [coeffs]}},
       'types': {name: {... assembly keys ..., 'AxialRegion': {...},
                        'SpacerGrid': {...}, 'FuelModel': {...},
                        'PinModel': {...}, 'Hotspot': {...}}},
       'positions': [{'type', 'ring', 'pos', 'flowrate' | 'outlet_temp' |
                      'delta_temp'}],   # ring/pos 1-based
       'power': {'zb': [z0..zn] (m), 'order': k, 'seed': s,
                 'total_power'?, 'scaling'?,
                 'asm': {str(pos_index0): {'total': W,
                                           'frac': [pins, duct, cool],
                                           'shape': str, ...}}}}
"""
import os
import math
import numpy as np

SQ3 = math.sqrt(3.0)

ASM_SCALARS = ['num_rings', 'pin_pitch', 'pin_diameter', 'clad_thickness',
               'wire_pitch', 'wire_diameter', 'wire_direction', 'duct_ftf',
               'duct_material', 'corr_mixing', 'corr_friction',
               'corr_flowsplit', 'corr_shapefactor', 'corr_nusselt',
               'htc_params_duct', 'bypass_gap_flow_fraction',
               'bypass_gap_loss_coeff', 'shape_factor',
               'use_low_fidelity_model', 'low_fidelity_model',
               'convection_factor', 'dummy_pin']


def n_pin(nr):
    return 3 * (nr - 1) * nr + 1


def n_cool(nr):
    return 6 * (nr * nr - nr + 1)


def n_ductcell(nr):
    return 6 * nr


def pos_index0(ring, pos):
    """0-based DASSH position index of (ring, pos), both 1-based."""
    if ring == 1:
        return 0
    return 3 * (ring - 2) * (ring - 1) + pos


def ring_pos(k0):
    """Inverse of pos_index0."""
    if k0 == 0:
        return 1, 1
    r = 2
    while 3 * (r - 1) * r + 1 <= k0:
        r += 1
    return r, k0 - 3 * (r - 2) * (r - 1)


def fmt(v):
    if isinstance(v, bool):
        return 'True' if v else 'False'
    if isinstance(v, (list, tuple)):
        if len(v) == 1:
            return fmt(v[0]) + ','
        return ', '.join(fmt(x) for x in v)
    if isinstance(v, float):
        return repr(float(v))
    if isinstance(v, (int, np.integer)):
        return str(int(v))
    if isinstance(v, np.floating):
        return repr(float(v))
    return str(v)


def _section(lines, name, d, depth):
    ind = '    ' * depth
    lines.append('%s%s%s%s' % (ind, '[' * (depth + 1), name, ']' * (depth + 1)))
    subs = []
    for k, v in d.items():
        if isinstance(v, dict):
            subs.append((k, v))
        elif v is None:
            continue
        else:
            lines.append('%s    %s = %s' % (ind, k, fmt(v)))
    for k, v in subs:
        _section(lines, k, v, depth + 1)


def render_text(P, power_name='power.csv'):
    L = []
    setup = dict(P.get('setup', {}))
    for k, v in P.get('setup_sub', {}).items():
        setup[k] = v
    if P.get('units'):
        setup['Units'] = dict(P['units'])
    _section(L, 'Setup', setup, 0)
    L.append('')
    _section(L, 'Materials', P.get('materials', {}), 0)
    L.append('')
    pw = {}
    if power_name is not None:
        pw['user_power'] = power_name
    if P.get('power', {}).get('total_power') is not None:
        pw['total_power'] = float(P['power']['total_power'])
    if P.get('power', {}).get('scaling') is not None:
        pw['power_scaling_factor'] = float(P['power']['scaling'])
    if P.get('power_section'):
        pw.update(P['power_section'])
    _section(L, 'Power', pw, 0)
    L.append('')
    core = {'coolant_inlet_temp': P['inlet'],
            'coolant_material': P['coolant'],
            'length': P['length'],
            'assembly_pitch': P['asm_pitch'],
            'gap_model': P.get('gap_model', 'flow'),
            'bypass_fraction': P.get('bypass_fraction', 0.0)}
    if P.get('htc_params_duct') is not None:
        core['htc_params_duct'] = P['htc_params_duct']
    for k, v in P.get('core_extra', {}).items():
        core[k] = v
    _section(L, 'Core', core, 0)
    L.append('')
    _section(L, 'Assembly', P['types'], 0)
    L.append('')
    if P.get('orificing'):
        _section(L, 'Orificing', P['orificing'], 0)
        L.append('')
    L.append('[Assignment]')
    L.append('    [[ByPosition]]')
    rows = []
    for a in P['positions']:
        kw = []
        for k in ('flowrate', 'outlet_temp', 'delta_temp', 'group'):
            if a.get(k) is not None:
                kw.append('%s=%s' % (k.upper(), fmt(a[k])))
        if a.get('raw_kw'):
            kw.append(a['raw_kw'])
        p2 = a.get('pos2', a['pos'])
        row = [a['type'], a['ring'], a['pos'], p2, ', '.join(kw)]
        # one line for a run of neighbouring positions of a ring that share
        # type and boundary condition (P['merge_lines'])
        if P.get('merge_lines') and rows and rows[-1][0] == row[0] and \
                rows[-1][1] == row[1] and rows[-1][3] + 1 == row[2] and \
                rows[-1][4] == row[4] and 'pos2' not in a:
            rows[-1][3] = p2
        else:
            rows.append(row)
    for row in rows:
        L.append('        %s = %d, %d, %d, %s' % tuple(row))
    L.append('')
    return '\n'.join(L)


# ----------------------------------------------------------------------
# power


def _cell_coeffs(rng, n_items, order, mean, shape, pos=None):
    """Non-negative polynomial coefficients (W/m) on z in [-0.5, 0.5]."""
    c = np.zeros((n_items, order + 1))
    if mean <= 0.0 or shape == 'zero':
        return c
    if shape == 'flat':
        c[:, 0] = mean
        return c
    if shape == 'hotpin':
        c[:, 0] = mean * 0.2
        j = int(rng.integers(n_items))
        c[j, 0] = mean * (0.2 + 0.8 * n_items)
    elif shape == 'tilt' and pos is not None:
        # linear tilt across the bundle (x direction), keeps > 0
        x = pos[:, 0]
        span = max(np.max(np.abs(x)), 1e-12)
        c[:, 0] = mean * (1.0 + 0.6 * x / span)
    else:
        c[:, 0] = mean * (0.3 + 1.4 * rng.random(n_items))
    for o in range(1, order + 1):
        # keep sum_o |c_o| 0.5^o < 0.9 c_0  => profile stays positive
        amp = 0.9 / order * (2.0 ** o)
        c[:, o] = c[:, 0] * amp * (2 * rng.random(n_items) - 1) * 0.9
    return c


def item_counts(t):
    nr = int(t['num_rings'])
    nd = len(t['duct_ftf']) // 2
    return n_pin(nr), n_ductcell(nr) * nd, n_cool(nr)


def power_arrays(P, k0):
    """Coefficient arrays for position index k0:
    {'pins': [ncell, n_pin, order+1], 'duct': ..., 'cool': ...} in W/m."""
    pw = P['power']
    spec = pw['asm'][str(k0)]
    a = [q for q in P['positions']
         if pos_index0(q['ring'], q['pos']) <= k0
         <= pos_index0(q['ring'], q.get('pos2', q['pos']))][0]
    t = P['types'][a['type']]
    npin, nduct, ncool = item_counts(t)
    zb = np.asarray(spec.get('zb', pw['zb']), dtype=float)
    ncell = len(zb) - 1
    order = int(spec.get('order', pw.get('order', 0)))
    rng = np.random.default_rng([int(pw.get('seed', 0)),
                                 int(spec.get('seed_k0', k0)), 7])
    frac = spec.get('frac', [0.9, 0.06, 0.04])
    comps = spec.get('comps', [1, 2, 3])
    # axial weights per cell (relative linear power level)
    axw = np.asarray(spec.get('axial', [1.0] * ncell), dtype=float)
    L = zb[1:] - zb[:-1]
    norm = float(np.sum(axw * L))
    out = {}
    names = {1: 'pins', 2: 'duct', 3: 'cool'}
    cnt = {1: npin, 2: nduct, 3: ncool}
    used = [c for c in comps]
    fsum = sum(frac[c - 1] for c in used) or 1.0
    for c in used:
        arr = np.zeros((ncell, cnt[c], order + 1))
        for k in range(ncell):
            if norm <= 0.0:
                continue
            mean = (spec['total'] * frac[c - 1] / fsum * axw[k] / norm
                    / cnt[c])
            shp = spec.get('shape', 'rand')
            if k in spec.get('zero_cells', []):
                shp = 'zero'
            if c == 1 and k in spec.get('zero_pin_cells', []):
                # pins unpowered over this stretch (plenum, withdrawn
                # absorber), coolant and duct heating continue
                shp = 'zero'
            arr[k] = _cell_coeffs(rng, cnt[c], order, mean, shp)
        if c == 2 and spec.get('duct_walls_zero'):
            # exactly zero heating in some of the walls (duct items are
            # listed wall by wall, innermost first)
            nd_ = len(t['duct_ftf']) // 2
            per = cnt[2] // nd_
            for w_ in spec['duct_walls_zero']:
                if 0 <= w_ < nd_:
                    arr[:, w_ * per:(w_ + 1) * per, :] = 0.0
        out[names[c]] = arr
    # optional relabelling (used by the symmetry checks): element i of the
    # generated map is moved to index perm[i]
    for name, perm in (spec.get('perm') or {}).items():
        if name in out:
            p = np.asarray(perm, dtype=int)
            moved = np.zeros_like(out[name])
            moved[:, p, :] = out[name]
            out[name] = moved
    return out, zb


def integrate_cell(c, L):
    """Integral over one axial cell of length L (m) of sum_o c_o z^o with
    z in [-0.5, 0.5] the cell-relative coordinate: L * sum_o c_o I_o."""
    tot = 0.0
    for o in range(c.shape[-1]):
        Io = (0.5 ** (o + 1) - (-0.5) ** (o + 1)) / (o + 1)
        tot = tot + c[..., o] * Io
    return tot * L


def integrate_partial(c, zlo, zhi, a, b):
    """Integral of the cell polynomial (cell spans [zlo, zhi]) over the
    physical interval [a, b] (clipped to the cell)."""
    a = max(a, zlo)
    b = min(b, zhi)
    if b <= a:
        return np.zeros(c.shape[:-1])
    L = zhi - zlo
    ua = (a - zlo) / L - 0.5
    ub = (b - zlo) / L - 0.5
    tot = 0.0
    for o in range(c.shape[-1]):
        Io = (ub ** (o + 1) - ua ** (o + 1)) / (o + 1)
        tot = tot + c[..., o] * Io
    return tot * L


def expected_power(P, k0):
    """Exact integral (W) of the raw (un-normalised) profile of position k0
    and its split by component."""
    arrs, zb = power_arrays(P, k0)
    L = zb[1:] - zb[:-1]
    out = {}
    for name, arr in arrs.items():
        out[name] = float(sum(np.sum(integrate_cell(arr[k], L[k]))
                              for k in range(len(L))))
    out['total'] = sum(out.values())
    return out


def write_power_csv(P, path):
    rows = []
    for k0s in sorted(P['power']['asm'], key=lambda s: int(s)):
        k0 = int(k0s)
        arrs, zb = power_arrays(P, k0)
        for ci, name in ((1, 'pins'), (2, 'duct'), (3, 'cool')):
            if name not in arrs:
                continue
            arr = arrs[name]
            for k in range(arr.shape[0]):
                for i in range(arr.shape[1]):
                    rows.append('%d,%d,%r,%r,%d,%s' % (
                        k0 + 1, ci, float(zb[k]), float(zb[k + 1]), i + 1,
                        ','.join(repr(float(x)) for x in arr[k, i])))
    # all rows must have the same number of columns
    with open(path, 'w') as f:
        f.write('\n'.join(rows) + '\n')


def render(P, workdir, name='input.txt'):
    os.makedirs(workdir, exist_ok=True)
    pname = None
    if P.get('power') and P['power'].get('asm'):
        pname = 'power.csv'
        write_power_csv(P, os.path.join(workdir, pname))
    txt = render_text(P, pname)
    for fname, content in P.get('extra_files', {}).items():
        with open(os.path.join(workdir, fname), 'w') as f:
            f.write(content)
    path = os.path.join(workdir, name)
    with open(path, 'w') as f:
        f.write(txt)
    return path


# ----------------------------------------------------------------------
# geometry helpers


def make_type(rng, nr, ftf_outer, n_duct=1, pd=None, wire=True, wall=None,
              byp_gap=None, slack=None, hd=None, corr=None, **kw):
    """One admissible pin-bundle assembly type whose outer duct outer
    flat-to-flat is `ftf_outer` (must be equal for all types of a core)."""
    pd = pd if pd is not None else 1.06 + 0.3 * rng.random()
    wall = wall if wall is not None else (0.0015 + 0.002 * rng.random())
    byp_gap = byp_gap if byp_gap is not None else (0.001 + 0.002 *
                                                   rng.random())
    # per-duct wall and per-gap thicknesses (outermost first); scalars mean
    # "draw the inner ones around this value", lists are taken as given
    walls = list(wall) if isinstance(wall, (list, tuple)) else [wall]
    gaps = list(byp_gap) if isinstance(byp_gap, (list, tuple)) else [byp_gap]
    while len(walls) < n_duct:
        walls.append(walls[0] * (1.0 if kw.get('equal_walls')
                                 else float(rng.uniform(0.4, 1.6))))
    while len(gaps) < n_duct:
        gaps.append(gaps[0] * (1.0 if kw.get('equal_walls')
                               else float(rng.uniform(0.6, 1.5))))
    kw.pop('equal_walls', None)
    ftf = []
    o = ftf_outer
    for d in range(n_duct):
        ftf = [o - 2 * walls[d], o] + ftf
        o = o - 2 * walls[d] - 2 * gaps[d]
    f_in = ftf[0]
    wf = (0.55 + 0.4 * rng.random()) if wire else 0.0
    sl = slack if slack is not None else 0.02 + 0.25 * rng.random()
    D = f_in / (SQ3 * (nr - 1) * pd + 1.0 + 2 * wf * (pd - 1.0) + sl)
    Pp = pd * D
    Dw = wf * (Pp - D)
    hd = hd if hd is not None else 8.0 + 30.0 * rng.random()
    t = {'num_rings': int(nr),
         'pin_pitch': Pp,
         'pin_diameter': D,
         'clad_thickness': 0.08 * D,
         'wire_pitch': hd * D,
         'wire_diameter': Dw,
         'wire_direction': 'counterclockwise',
         'duct_ftf': [float(x) for x in ftf],
         'duct_material': 'ht9_se2anl_425'}
    if corr:
        t['corr_mixing'], t['corr_friction'], t['corr_flowsplit'] = corr
    if n_duct > 1:
        t['bypass_gap_flow_fraction'] = kw.pop('byp_ff', 0.05)
    t.update(kw)
    return t


def flow_area(t):
    """Bundle flow area (m^2) from first principles (bare hexagon minus pins
    and wires; wire inclination neglected: only used to choose flow rates)."""
    f_in = min(t['duct_ftf'])
    nr = t['num_rings']
    return (SQ3 / 2 * f_in ** 2
            - n_pin(nr) * math.pi / 4 * (t['pin_diameter'] ** 2
                                         + t['wire_diameter'] ** 2))


CONST_NA = {'thermal_conductivity': [70.0], 'density': [850.0],
            'viscosity': [0.00027], 'heat_capacity': [1274.0]}
CONST_STEEL = {'thermal_conductivity': [26.0]}
RHO = 850.0
CP = 1274.0
MU = 0.00027


def base_problem(length=1.0, asm_pitch=0.12, inlet=623.15,
                 coolant='na_const', gap_model='none', bypass_fraction=0.0):
    P = {'length': length, 'asm_pitch': asm_pitch, 'inlet': inlet,
         'coolant': coolant, 'gap_model': gap_model,
         'bypass_fraction': bypass_fraction,
         'setup': {}, 'setup_sub': {},
         'materials': {'na_const': dict(CONST_NA),
                       'steel_const': dict(CONST_STEEL)},
         'types': {}, 'positions': [],
         'power': {'zb': [0.0, length], 'order': 0, 'seed': 0, 'asm': {}}}
    return P


def add_position(P, tname, ring, pos, velocity=None, flowrate=None,
                 dT=60.0, frac=(0.9, 0.06, 0.04), shape='rand', bc='flowrate',
                 **spec):
    """Place an assembly; flow from a bundle velocity, power from a target
    temperature rise. bc selects how the boundary condition is written:
    'flowrate', 'outlet_temp' or 'delta_temp' (DASSH then derives the flow
    from the assembly power)."""
    t = P['types'][tname]
    rho, cp = P.get('coolant_rho_cp', (RHO, CP))
    if flowrate is None:
        flowrate = rho * velocity * flow_area(t)
    a = {'type': tname, 'ring': ring, 'pos': pos}
    if bc == 'outlet_temp':
        a['outlet_temp'] = float(P['inlet'] + dT)
    elif bc == 'delta_temp':
        a['delta_temp'] = float(dT)
    else:
        a['flowrate'] = float(flowrate)
    a['nominal_flowrate'] = float(flowrate)
    P['positions'].append(a)
    k0 = pos_index0(ring, pos)
    d = {'total': float(flowrate * cp * dT), 'frac': list(frac),
         'shape': shape}
    d.update(spec)
    P['power']['asm'][str(k0)] = d
    return k0
