import sys
from vmon.harness import main
sys.exit(main())
