"""Build and march real DASSH models from generated problems."""
import os
import io
import sys
import shutil
import tempfile
import contextlib
import json

from vmon import env, gen

dassh = env.import_dassh()
import numpy as np  # noqa: E402


class Rejected(Exception):
    """DASSH's own error path: logged error followed by SystemExit."""

    def __init__(self, stage, messages):
        Exception.__init__(self, '%s: %s' % (stage, '; '.join(
            m for _, m in messages[-3:])))
        self.stage = stage
        self.messages = messages


@contextlib.contextmanager
def scratch(prefix='vmon_'):
    base = os.environ.get('VERIF_SCRATCH') or tempfile.gettempdir()
    d = tempfile.mkdtemp(prefix=prefix, dir=base)
    try:
        yield d
    finally:
        shutil.rmtree(d, ignore_errors=True)


@contextlib.contextmanager
def quiet():
    so, se = sys.stdout, sys.stderr
    sys.stdout = io.StringIO()
    sys.stderr = io.StringIO()
    try:
        yield
    finally:
        sys.stdout, sys.stderr = so, se


def read_input(path, **kw):
    env.log_records()
    try:
        with quiet():
            return dassh.DASSH_Input(path, **kw)
    except SystemExit:
        raise Rejected('input', env.log_records())


def build_reactor(inp, **kw):
    env.log_records()
    try:
        with quiet():
            return dassh.Reactor(inp, **kw)
    except SystemExit:
        raise Rejected('setup', env.log_records())


class TooManySteps(Rejected):
    """Raised by the harness (not DASSH) before the axial mesh is built when
    the selected step would need more than `max_steps` planes or cannot
    advance at all (step <= 0, see C05)."""


def build(P, workdir, max_steps=None, **kw):
    path = gen.render(P, workdir)
    inp = read_input(path)
    if max_steps is None:
        return inp, build_reactor(inp, **kw)
    from vmon.probe import Hooks

    def guard(args, kwargs):
        r = args[0]
        if not (r.req_dz > 0.0) or r.core_length / r.req_dz > max_steps:
            raise TooManySteps('too_many_steps', [(
                'HARNESS', 'req_dz=%r core_length=%r' % (r.req_dz,
                                                         r.core_length))])

    with Hooks() as hk:
        hk.wrap(dassh.reactor.Reactor, '_setup_zpts', pre=guard)
        r = build_reactor(inp, **kw)
    return inp, r


def sweep(r, on_step=None, before_step=None):
    """The body of Reactor.temperature_sweep, step by step, so a monitor can
    look between steps. Uses only the real methods."""
    env.log_records()
    try:
        with quiet():
            r._data_setup()
            r._data_open()
            r.axial_step0()
            for i in range(1, len(r.z)):
                if before_step:
                    before_step(i)
                r.axial_step(r.z[i], r.dz[i - 1], i)
                if on_step:
                    on_step(i)
            try:
                r._data_close()
            except (AttributeError, KeyError):
                pass
    except SystemExit:
        raise Rejected('sweep', env.log_records())


def all_regions(r):
    for a in r.assemblies:
        for reg in a.region:
            yield a, reg


# ----------------------------------------------------------------------
# the repository's own example inputs as workloads

REPO_INPUTS = [
    'input_custom_mat.txt', 'input_dd_ebal.txt', 'input_dd_stagnant_byp.txt',
    'input_duct_heating.txt', 'input_duct_heating_adiabatic.txt',
    'input_general_pinmodel.txt', 'input_multiple_tp.txt',
    'input_one_axial_reg.txt', 'input_orificing.txt',
    'input_power_verif_refl.txt', 'input_power_verif_vac.txt',
    'input_req_axial_plane.txt', 'input_single_asm.txt',
    'input_single_asm_lf.txt', 'input_single_asm_pin_table.txt',
    'input_single_spacer.txt', 'input_single_tp.txt',
    'input_single_tp_old_fcgap.txt']


def repo_inputs():
    """Example inputs of the repository (tests/test_inputs) whose data files
    are intact in this checkout; the list is fixed, files that have gone
    missing are skipped by the caller through Rejected."""
    base = os.path.join(env.SRC, 'tests', 'test_inputs')
    return [n for n in REPO_INPUTS if os.path.exists(os.path.join(base, n))]


def build_repo_input(name, workdir, max_steps=None, **kw):
    """Copy tests/test_inputs next to a link to tests/test_data (the inputs
    use ../test_data paths) and build the model with the real reader."""
    src = os.path.join(env.SRC, 'tests')
    ti = os.path.join(workdir, 'test_inputs')
    os.makedirs(ti, exist_ok=True)
    for f in os.listdir(os.path.join(src, 'test_inputs')):
        p = os.path.join(src, 'test_inputs', f)
        if os.path.isfile(p):
            shutil.copy(p, os.path.join(ti, f))
    # the power pre-processor writes next to the data: work on a copy
    for ds in ('single_asm_refl', 'single_asm_vac'):
        p = os.path.join(src, 'test_data', ds)
        if os.path.isdir(p):
            shutil.copytree(p, os.path.join(workdir, 'test_data', ds),
                            dirs_exist_ok=True)
    td = os.path.join(src, 'test_data')
    for f in os.listdir(td):
        q = os.path.join(workdir, 'test_data', f)
        if not os.path.exists(q):
            os.makedirs(os.path.dirname(q), exist_ok=True)
            os.symlink(os.path.join(td, f), q)
    env.log_records()
    cwd = os.getcwd()
    try:
        os.chdir(ti)
        try:
            with quiet():
                inp = dassh.DASSH_Input(os.path.join(ti, name))
        except SystemExit:
            raise Rejected('input', env.log_records())
        except Exception as e:
            raise Rejected('input', [('HARNESS', 'data files not usable: '
                                      '%s: %s' % (type(e).__name__, e))])
        kw.setdefault('calc_power', True)
        try:
            with quiet():
                r = dassh.Reactor(inp, **kw)
        except SystemExit:
            raise Rejected('setup', env.log_records())
        except (FileNotFoundError, OSError) as e:
            raise Rejected('setup', [('HARNESS', 'data files not usable: '
                                      '%s' % e)])
    finally:
        os.chdir(cwd)
    if max_steps is not None and len(r.z) > max_steps:
        raise TooManySteps('too_many_steps', [('HARNESS', '%d planes'
                                               % len(r.z))])
    return inp, r


def run_repo_tests(monitors, timeout=2400, select=None):
    """Run the repository's own test-suite in a scratch copy of the source
    tree with the pytest plugin vmon.pytest_monitors loaded; returns
    {monitor-set name: Result dict} and the pytest summary line."""
    import subprocess
    with scratch('vmon_tests_') as base:
        copy = os.path.join(base, 'repo')
        shutil.copytree(env.SRC, copy, symlinks=True,
                        ignore=shutil.ignore_patterns('.git', '__pycache__',
                                                      '*.egg-info'))
        out = os.path.join(base, 'monitors.json')
        e = dict(os.environ)
        e['PYTHONPATH'] = os.pathsep.join(
            [copy, os.path.dirname(os.path.dirname(os.path.abspath(
                __file__)))])
        e['VERIF_DASSH_SRC'] = copy
        e['VMON_MONITORS'] = ','.join(monitors)
        e['VMON_MONITORS_OUT'] = out
        e.pop('DASSH_VERIF', None)
        cmd = [sys.executable, '-m', 'pytest', '-q', '-p',
               'no:cacheprovider', '-p', 'vmon.pytest_monitors',
               '--timeout=900', '--continue-on-collection-errors']
        if select:
            cmd += list(select)
        p = subprocess.run(cmd, cwd=copy, env=e, stdout=subprocess.PIPE,
                           stderr=subprocess.STDOUT, timeout=timeout)
        tail = p.stdout.decode(errors='replace').strip().splitlines()[-1:]
        res = {}
        if os.path.exists(out):
            with open(out) as f:
                res = json.load(f)
        return res, (tail[0] if tail else '')
