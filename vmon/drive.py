"""Build and march real DASSH models from generated problems."""
import os
import io
import sys
import shutil
import tempfile
import contextlib

from vmon import env, gen

dassh = env.import_dassh()
import numpy as np  # noqa: E402


class Rejected(Exception):
    """DASSH's own error path: logged error followed by SystemExit."""

    def __init__(self, stage, messages):
        Exception.__init__(self, '%s: %s' % (stage, '; '.join(
            m for _, m in messages[-3:])))
        self.stage = stage
        self.messages = messages


@contextlib.contextmanager
def scratch(prefix='vmon_'):
    base = os.environ.get('VERIF_SCRATCH') or tempfile.gettempdir()
    d = tempfile.mkdtemp(prefix=prefix, dir=base)
    try:
        yield d
    finally:
        shutil.rmtree(d, ignore_errors=True)


@contextlib.contextmanager
def quiet():
    so, se = sys.stdout, sys.stderr
    sys.stdout = io.StringIO()
    sys.stderr = io.StringIO()
    try:
        yield
    finally:
        sys.stdout, sys.stderr = so, se


def read_input(path, **kw):
    env.log_records()
    try:
        with quiet():
            return dassh.DASSH_Input(path, **kw)
    except SystemExit:
        raise Rejected('input', env.log_records())


def build_reactor(inp, **kw):
    env.log_records()
    try:
        with quiet():
            return dassh.Reactor(inp, **kw)
    except SystemExit:
        raise Rejected('setup', env.log_records())


class TooManySteps(Rejected):
    """Raised by the harness (not DASSH) before the axial mesh is built when
    the selected step would need more than `max_steps` planes or cannot
    advance at all (step <= 0, see C05)."""


def build(P, workdir, max_steps=None, **kw):
    path = gen.render(P, workdir)
    inp = read_input(path)
    if max_steps is None:
        return inp, build_reactor(inp, **kw)
    from vmon.probe import Hooks

    def guard(args, kwargs):
        r = args[0]
        if not (r.req_dz > 0.0) or r.core_length / r.req_dz > max_steps:
            raise TooManySteps('too_many_steps', [(
                'HARNESS', 'req_dz=%r core_length=%r' % (r.req_dz,
                                                         r.core_length))])

    with Hooks() as hk:
        hk.wrap(dassh.reactor.Reactor, '_setup_zpts', pre=guard)
        r = build_reactor(inp, **kw)
    return inp, r


def sweep(r, on_step=None, before_step=None):
    """The body of Reactor.temperature_sweep, step by step, so a monitor can
    look between steps. Uses only the real methods."""
    env.log_records()
    try:
        with quiet():
            r._data_setup()
            r._data_open()
            r.axial_step0()
            for i in range(1, len(r.z)):
                if before_step:
                    before_step(i)
                r.axial_step(r.z[i], r.dz[i - 1], i)
                if on_step:
                    on_step(i)
            try:
                r._data_close()
            except (AttributeError, KeyError):
                pass
    except SystemExit:
        raise Rejected('sweep', env.log_records())


def all_regions(r):
    for a in r.assemblies:
        for reg in a.region:
            yield a, reg
