"""Attach/detach wrappers around real dassh callables (no source edits).

    with Hooks() as hk:
        hk.wrap(Assembly, 'calculate', pre=f, post=g)
        ... run the real code ...

pre(self, args, kwargs) -> token ; post(self, args, kwargs, result, token).
Every wrapper counts its evaluations in hk.n[name] so a check can tell a
monitor that never ran (inconclusive) from one that ran and was silent.
"""
import functools


class Hooks(object):
    def __init__(self):
        self._undo = []
        self.n = {}

    def __enter__(self):
        return self

    def __exit__(self, *a):
        self.detach()
        return False

    def detach(self):
        while self._undo:
            owner, name, orig, had = self._undo.pop()
            if had:
                setattr(owner, name, orig)
            else:
                try:
                    delattr(owner, name)
                except AttributeError:
                    pass

    def wrap(self, owner, name, pre=None, post=None, label=None):
        label = label or '%s.%s' % (getattr(owner, '__name__', owner), name)
        had = name in getattr(owner, '__dict__', {})
        orig_attr = owner.__dict__[name] if had else None
        orig = getattr(owner, name)
        is_static = isinstance(orig_attr, staticmethod)
        hk = self
        hk.n.setdefault(label, 0)

        @functools.wraps(orig)
        def wrapper(*args, **kwargs):
            hk.n[label] += 1
            tok = pre(args, kwargs) if pre else None
            res = orig(*args, **kwargs)
            if post:
                post(args, kwargs, res, tok)
            return res

        setattr(owner, name, staticmethod(wrapper) if is_static else wrapper)
        self._undo.append((owner, name, orig_attr, had))
        return wrapper

    def replace(self, owner, name, new):
        had = name in getattr(owner, '__dict__', {})
        orig_attr = owner.__dict__[name] if had else None
        setattr(owner, name, new)
        self._undo.append((owner, name, orig_attr, had))
