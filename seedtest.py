#!/venv/bin/python
"""./seedtest.py Cxx [A|B ...] [--also C02,C07] [--tier quick]
Confirm a seeded property-breaking change delivered in /tmp/seed/Cxx/_seed/ and run
the checks against it. Everything happens in a scratch git worktree of /repo under
/tmp/seedrun (removed afterwards); /repo itself is not touched. Confirmed seeds are
stored in /verif/seeded/<Cxx>-<variant>/ (patch.diff, demo.py, meta.json)."""
import json, os, re, shutil, subprocess, sys, tempfile, time
import xml.etree.ElementTree as ET
HERE = os.path.dirname(os.path.abspath(__file__))
args = [a for a in sys.argv[1:] if not a.startswith('--')]
opts = {a.split('=')[0]: (a.split('=') + [''])[1] for a in sys.argv[1:] if a.startswith('--')}
pid = args[0]
prop = pid[:3]
variants = args[1:] or ['A', 'B']
also = [x for x in opts.get('--also', '').split(',') if x]
tier = opts.get('--tier', 'quick')
skip_tests = '--skip-tests' in opts
src = '/tmp/seed/%s/_seed' % pid
PY = '/venv/bin/python'

def passing(tree):
    with tempfile.TemporaryDirectory() as d:
        x = os.path.join(d, 'j.xml')
        e = dict(os.environ, PYTHONPATH=tree); e.pop('DASSH_VERIF', None)
        subprocess.run([PY, '-m', 'pytest', '-q', '-p', 'no:cacheprovider', '--timeout=900',
                        '--continue-on-collection-errors', '--junitxml=' + x], cwd=tree, env=e,
                       stdout=subprocess.DEVNULL, stderr=subprocess.DEVNULL)
        ok = set()
        for tc in ET.parse(x).iter('testcase'):
            if not any(c.tag in ('failure', 'error', 'skipped') for c in tc):
                ok.add(tc.get('classname') + '::' + tc.get('name'))
        return ok

def run_demo(demo, tree):
    e = dict(os.environ, PYTHONPATH=tree, MPLBACKEND='Agg')
    with tempfile.TemporaryDirectory() as d:
        r = subprocess.run([PY, demo], cwd=d, env=e, stdout=subprocess.PIPE, stderr=subprocess.STDOUT, timeout=1800)
    return r.returncode, r.stdout.decode(errors='replace')[-600:]

base_pass = None
for v in variants:
    diff = os.path.join(src, v + '.diff'); demo = os.path.join(src, 'demo_%s.py' % v)
    if not (os.path.exists(diff) and os.path.exists(demo)):
        print(pid, v, 'MISSING FILES'); continue
    wt = '/tmp/seedrun/%s_%s' % (pid, v)
    subprocess.run(['git', '-C', '/repo', 'worktree', 'remove', '--force', wt], stdout=subprocess.DEVNULL, stderr=subprocess.DEVNULL)
    os.makedirs('/tmp/seedrun', exist_ok=True)
    subprocess.run(['git', '-C', '/repo', 'worktree', 'add', '-q', '--detach', wt, 'HEAD'], check=True)
    meta = {'seed_id': '%s-%s' % (pid, v), 'property': prop, 'repo_head': subprocess.check_output(
        ['git', '-C', '/repo', 'rev-parse', '--short', 'HEAD']).decode().strip()}
    try:
        # demos are confirmed in the worktree they were written in (some of
        # them insist on being imported from there); the checks run against
        # a scratch worktree of the current /repo HEAD with the patch applied
        home = '/tmp/seed/%s' % pid
        subprocess.run(['git', '-C', home, 'checkout', '-q', '--', 'dassh'])
        rc0, out0 = run_demo(demo, home)
        ap0 = subprocess.run(['git', '-C', home, 'apply', diff], stdout=subprocess.PIPE, stderr=subprocess.STDOUT)
        try:
            rc1, out1 = run_demo(demo, home)
            meta['demo'] = {'clean_exit': rc0, 'patched_exit': rc1, 'patched_output_tail': out1[-300:],
                            'run_in': home}
            pp = None
            if not skip_tests:
                if base_pass is None:
                    subprocess.run(['git', '-C', home, 'stash', '-q'])
                    base_pass = passing(home)
                    subprocess.run(['git', '-C', home, 'stash', 'pop', '-q'])
                pp = passing(home)
                meta['tests'] = {'baseline_passing': len(base_pass), 'patched_passing': len(pp),
                                 'lost': sorted(base_pass - pp)[:10]}
        finally:
            subprocess.run(['git', '-C', home, 'checkout', '-q', '--', 'dassh'])
        ap = subprocess.run(['git', '-C', wt, 'apply', diff], stdout=subprocess.PIPE, stderr=subprocess.STDOUT)
        if ap.returncode != 0:
            print(pid, v, 'PATCH DOES NOT APPLY to current HEAD:', ap.stdout.decode()[:300]); meta['applies'] = False
            continue
        confirmed = (rc0 == 0 and rc1 != 0 and (skip_tests or not (base_pass - pp)))
        meta['confirmed'] = confirmed
        res = {}
        for c in [prop] + also:
            t0 = time.time()
            e = dict(os.environ, VERIF_DASSH_SRC=wt, VERIF_OUT_DIR=os.path.join(wt, '_vout'))
            r = subprocess.run([os.path.join(HERE, 'check'), c, '--tier', tier], env=e,
                               stdout=subprocess.PIPE, stderr=subprocess.STDOUT)
            txt = r.stdout.decode(errors='replace')
            mons = sorted(set(l.split('monitor=')[1].split()[0] for l in txt.splitlines() if 'monitor=' in l))
            res[c] = {'exit': r.returncode, 'monitors': mons, 'wall_s': round(time.time() - t0, 1),
                      'tier': tier, 'cmd': 'VERIF_DASSH_SRC=<scratch worktree with patch> ./check %s --tier %s' % (c, tier)}
        meta['checks'] = res
        meta['caught_by'] = [c for c, x in res.items() if x['exit'] == 1]
        notes = os.path.join(src, 'NOTES.md')
        out = os.path.join(HERE, 'seeded', '%s-%s' % (pid, v))
        os.makedirs(out, exist_ok=True)
        shutil.copy(diff, os.path.join(out, 'patch.diff'))
        shutil.copy(demo, os.path.join(out, 'demo.py'))
        if os.path.exists(notes):
            shutil.copy(notes, os.path.join(out, 'NOTES.md'))
        old = {}
        mp = os.path.join(out, 'meta.json')
        if os.path.exists(mp):
            old = json.load(open(mp))
        desc = {}
        dp = os.path.join(HERE, 'seeded', 'descriptions.json')
        if os.path.exists(dp):
            desc = json.load(open(dp)).get(meta['seed_id'], {})
        for k in ('breaks', 'needs'):
            if k in desc:
                meta[k] = desc[k]
            elif k in old:
                meta[k] = old[k]
        if skip_tests and 'tests' in old:
            meta['tests'] = old['tests']
        json.dump(meta, open(mp, 'w'), indent=1)
        print(pid, v, 'confirmed=%s' % confirmed, 'demo clean/patched exit = %d/%d' % (rc0, rc1),
              'tests lost=%s' % (meta.get('tests', {}).get('lost')),
              {c: (x['exit'], x['monitors'][:4]) for c, x in res.items()}, flush=True)
    finally:
        subprocess.run(['git', '-C', '/repo', 'worktree', 'remove', '--force', wt], stdout=subprocess.DEVNULL, stderr=subprocess.DEVNULL)
# evidence written while a patched tree was under test describes the patch, not /repo: refresh
