#!/venv/bin/python
"""Run the repository test suite (guard off) and compare with BASELINE.json."""
import json, os, subprocess, sys, tempfile, xml.etree.ElementTree as ET
b = json.load(open('/root/.vp/BASELINE.json'))
with tempfile.TemporaryDirectory() as d:
    x = os.path.join(d, 'j.xml')
    env = dict(os.environ); env.pop('DASSH_VERIF', None)
    subprocess.run(['/venv/bin/python', '-m', 'pytest', '-q', '-p', 'no:cacheprovider', '--timeout=900',
                    '--continue-on-collection-errors', '--junitxml=' + x], cwd='/repo', env=env,
                   stdout=subprocess.DEVNULL, stderr=subprocess.DEVNULL)
    ok = set()
    for tc in ET.parse(x).iter('testcase'):
        if not any(c.tag in ('failure', 'error', 'skipped') for c in tc):
            ok.add(tc.get('classname') + '::' + tc.get('name'))
miss = sorted(set(b['stable_pass']) - ok)
print('passed now: %d; baseline stable_pass: %d; baseline tests no longer passing: %d' % (len(ok), len(b['stable_pass']), len(miss)))
for m in miss: print('  MISSING', m)
sys.exit(1 if miss else 0)
